package c06kit

import (
	"bytes"
	"context"
	"fmt"
	"runtime/debug"
	"sync"
	"time"

	"github.com/ipfs/boxo/exchange"
	blocks "github.com/ipfs/go-block-format"
	"github.com/ipfs/go-cid"
	mh "github.com/multiformats/go-multihash"
	"pgregory.net/rapid"

	libshare "github.com/celestiaorg/go-square/v4/share"

	vk "github.com/celestiaorg/celestia-node/internal/verifkit"
	"github.com/celestiaorg/celestia-node/share/eds"
	"github.com/celestiaorg/celestia-node/share/shwap"
	bitswappb "github.com/celestiaorg/celestia-node/share/shwap/p2p/bitswap/pb"
	"github.com/celestiaorg/celestia-node/store"
)

// Squares is a fake serving side (AccessorGetter of bitswap.Blockstore) over generated squares.
type Squares map[uint64]*vk.Square

func (s Squares) GetByHeight(_ context.Context, h uint64) (eds.AccessorStreamer, error) {
	sq, ok := s[h]
	if !ok {
		return nil, store.ErrNotFound
	}
	return &eds.Rsmt2D{ExtendedDataSquare: sq.EDS}, nil
}

func (s Squares) HasByHeight(_ context.Context, h uint64) (bool, error) {
	_, ok := s[h]
	return ok, nil
}

// BSStep is what one peer sends for one wanted CID.
type BSStep struct {
	Kind   string
	Data   []byte
	Honest bool // byte-identical to the block an honest node serves for the want
	Silent bool // the peer has nothing / says DONT_HAVE
	Expire bool // the caller's context ends while waiting for this peer

	// observed
	Reached  bool
	Offered  bool
	Accepted bool
	CtxAlive bool
	Spare    time.Duration // time left until the deadline of the GetBlocks context at the offer
}

// BSItem is one wanted CID with the ordered answers of the peers.
type BSItem struct {
	Want      cid.Cid
	Desc      string
	Steps     []*BSStep
	Delivered bool
	Exhausted bool
}

// HonestOffered reports whether an honest block for the want was offered to the requester while
// the caller's context was alive.
func (it *BSItem) HonestOffered() bool { return it.HonestOfferedWithSpare(0) }

// HonestOfferedWithSpare is HonestOffered with the additional demand that at least spare was left
// until the deadline of the request when the block was offered.
func (it *BSItem) HonestOfferedWithSpare(spare time.Duration) bool {
	for _, s := range it.Steps {
		if s.Honest && s.Offered && s.CtxAlive && s.Spare >= spare {
			return true
		}
	}
	return false
}

// GenBSScript draws the answers of 1-6 peers for one wanted CID.
func GenBSScript(t *rapid.T, label string, noExpire bool) []string {
	n := rapid.IntRange(1, 6).Draw(t, label+".len")
	kinds := []string{
		"honest", "honest", "honest", "honest",
		"other-id", "other-id", "relabelled", "relabelled", "other-square", "other-square", "other-square",
		"truncated", "extended", "garbled", "garbled", "empty", "empty-container", "dont-have", "dont-have",
	}
	out := make([]string, 0, n)
	for i := 0; i < n; i++ {
		k := rapid.SampledFrom(kinds).Draw(t, label+".kind")
		out = append(out, k)
		if k == "honest" {
			break
		}
	}
	if !noExpire && out[len(out)-1] != "honest" && rapid.IntRange(0, 2).Draw(t, label+".expire") == 0 {
		out[len(out)-1] = "expire"
	}
	return out
}

// bsNeighbour computes the CID of another identifier of the same block type in the same square.
func bsNeighbour(t *rapid.T, label string, r Req, want cid.Cid, sq *vk.Square, height uint64) (cid.Cid, bool) {
	p := want.Prefix()
	dm, err := mh.Decode(want.Hash())
	if err != nil {
		return cid.Undef, false
	}
	w := sq.Width()
	var nb []byte
	switch r.Kind {
	case "samples":
		id, err := shwap.SampleIDFromBinary(dm.Digest)
		if err != nil {
			return cid.Undef, false
		}
		c := shwap.SampleCoords{Row: id.RowIndex, Col: id.ShareIndex}
		if rapid.Bool().Draw(t, label+".nrowcol") {
			c.Col = (c.Col + 1 + rapid.IntRange(0, w-2).Draw(t, label+".dcol")) % w
		} else {
			c.Row = (c.Row + 1 + rapid.IntRange(0, w-2).Draw(t, label+".drow")) % w
		}
		n, err := shwap.NewSampleID(height, c, w)
		if err != nil {
			return cid.Undef, false
		}
		nb, err = n.MarshalBinary()
		if err != nil {
			return cid.Undef, false
		}
	case "row", "eds":
		id, err := shwap.RowIDFromBinary(dm.Digest)
		if err != nil {
			return cid.Undef, false
		}
		n, err := shwap.NewRowID(height, (id.RowIndex+1+rapid.IntRange(0, w-2).Draw(t, label+".drow"))%w, w)
		if err != nil {
			return cid.Undef, false
		}
		nb, err = n.MarshalBinary()
		if err != nil {
			return cid.Undef, false
		}
	case "nd":
		id, err := shwap.RowNamespaceDataIDFromBinary(dm.Digest)
		if err != nil {
			return cid.Undef, false
		}
		row, ns := id.RowIndex, id.DataNamespace
		if rapid.Bool().Draw(t, label+".nrowns") {
			row = (row + 1 + rapid.IntRange(0, sq.ODS-1).Draw(t, label+".drow")) % w
		} else {
			cands := []libshare.Namespace{vk.OddNS(rapid.IntRange(0, 6).Draw(t, label+".odd"))}
			for _, x := range sq.NamespacesPresent() {
				if x.ValidateForData() == nil {
					cands = append(cands, x)
				}
			}
			ns = cands[rapid.IntRange(0, len(cands)-1).Draw(t, label+".nns")]
		}
		if row == id.RowIndex && ns.Equals(id.DataNamespace) {
			return cid.Undef, false
		}
		n, err := shwap.NewRowNamespaceDataID(height, row, ns, w)
		if err != nil {
			return cid.Undef, false
		}
		nb, err = n.MarshalBinary()
		if err != nil {
			return cid.Undef, false
		}
	default:
		id, err := shwap.RangeNamespaceDataIDV0FromBinary(dm.Digest)
		if err != nil {
			return cid.Undef, false
		}
		area := sq.ODS * sq.ODS
		from, to := id.From, id.To
		switch rapid.IntRange(0, 2).Draw(t, label+".nkind") {
		case 0:
			to = min(area, to+rapid.IntRange(1, 2*sq.ODS).Draw(t, label+".grow"))
		case 1:
			from = max(0, from-rapid.IntRange(1, sq.ODS).Draw(t, label+".early"))
		default:
			if to < area {
				from, to = from+1, to+1
			} else if from > 0 {
				from, to = from-1, to-1
			}
		}
		if from == id.From && to == id.To {
			return cid.Undef, false
		}
		e, err := shwap.NewEdsID(height)
		if err != nil {
			return cid.Undef, false
		}
		n, err := shwap.NewRangeNamespaceDataIDV0(e, from, to, sq.ODS)
		if err != nil {
			return cid.Undef, false
		}
		nb, err = n.MarshalBinary()
		if err != nil {
			return cid.Undef, false
		}
	}
	buf, err := mh.Encode(nb, p.MhType)
	if err != nil {
		return cid.Undef, false
	}
	return cid.NewCidV1(p.Codec, buf), true
}

func bsEnvelope(inner, container []byte) []byte {
	b := bitswappb.Block{Cid: inner, Container: container}
	out, err := b.Marshal()
	if err != nil {
		panic(err)
	}
	return out
}

func bsSplit(data []byte) (inner, container []byte) {
	var b bitswappb.Block
	if err := b.Unmarshal(data); err != nil {
		return nil, nil
	}
	return b.Cid, b.Container
}

// ServeFn produces the block an honest node holding sq at the case's height sends for c.
type ServeFn func(sq *vk.Square, c cid.Cid) ([]byte, error)

// PrepareBSItem materialises the script of one wanted CID.
func PrepareBSItem(t *rapid.T, label string, r Req, idx int, want cid.Cid, sq, sib *vk.Square, height uint64,
	serve ServeFn, script []string,
) (*BSItem, error) {
	honest, err := serve(sq, want)
	if err != nil {
		return nil, fmt.Errorf("honest block for %s#%d: %w", r.Desc(), idx, err)
	}
	inner, _ := bsSplit(honest)
	it := &BSItem{Want: want, Desc: fmt.Sprintf("%s#%d", r.Kind, idx)}
	otherSquare := func() []byte {
		b, err := serve(sib, want)
		if err != nil {
			return nil
		}
		return b
	}
	for j, kind := range script {
		l := fmt.Sprintf("%s.s%d", label, j)
		st := &BSStep{Kind: kind}
		switch kind {
		case "honest":
			st.Data = honest
		case "other-id", "relabelled":
			nb, ok := bsNeighbour(t, l, r, want, sq, height)
			var b []byte
			if ok {
				b, err = serve(sq, nb)
			}
			if !ok || err != nil {
				st.Kind = "other-square"
				st.Data = otherSquare()
				break
			}
			st.Data = b
			if kind == "relabelled" {
				_, cont := bsSplit(b)
				st.Data = bsEnvelope(inner, cont)
			}
		case "other-square":
			st.Data = otherSquare()
		case "truncated":
			st.Data = honest[:rapid.IntRange(0, len(honest)-1).Draw(t, l+".cut")]
		case "extended":
			st.Data = append(append([]byte(nil), honest...), rapid.SliceOfN(rapid.Byte(), 1, 16).Draw(t, l+".ext")...)
		case "garbled":
			st.Data, _ = vk.MutateBytes(t, l+".mut", honest, nil)
		case "empty":
			st.Data = []byte{}
		case "empty-container":
			st.Data = bsEnvelope(inner, nil)
		case "dont-have":
			st.Silent = true
		case "expire":
			st.Expire = true
		default:
			return nil, fmt.Errorf("unknown bitswap behaviour %q", kind)
		}
		if st.Data == nil && !st.Silent && !st.Expire {
			st.Silent = true
			st.Kind = "dont-have"
		}
		st.Honest = !st.Silent && !st.Expire && bytes.Equal(st.Data, honest)
		it.Steps = append(it.Steps, st)
	}
	return it, nil
}

// BSExchange is a fake exchange.SessionExchange that applies Bitswap's acceptance rule to every
// scripted candidate: the bytes are hashed with the multihash function of the wanted CID (which
// runs the registered hasher, i.e. the real verification) and the block is delivered only if the
// resulting CID is the wanted one. It honours the GetBlocks contract: the channel is closed only
// when every want was delivered or the context ended.
type BSExchange struct {
	Ctl   *ScriptCtx // nil: a used-up script just waits for the request context to end
	Serve func(c cid.Cid) ([]byte, error)

	mu       sync.Mutex
	items    map[cid.Cid]*BSItem
	order    []*BSItem
	Log      []string
	Panics   []string
	Unknown  int
	Calls    int
	Notified int
	wg       sync.WaitGroup
}

// NewBSExchange builds the exchange over the scripted items; serve answers unscripted wants.
func NewBSExchange(ctl *ScriptCtx, items []*BSItem, serve func(c cid.Cid) ([]byte, error)) *BSExchange {
	x := &BSExchange{Ctl: ctl, Serve: serve, items: map[cid.Cid]*BSItem{}}
	for _, it := range items {
		x.items[it.Want] = it
		x.order = append(x.order, it)
	}
	return x
}

func (x *BSExchange) Items() []*BSItem { return x.order }

func (x *BSExchange) History() []string {
	x.mu.Lock()
	defer x.mu.Unlock()
	return append([]string(nil), x.Log...)
}

// Wait blocks until every delivery goroutine has ended.
func (x *BSExchange) Wait() { x.wg.Wait() }

func (x *BSExchange) NewSession(context.Context) exchange.Fetcher { return x }
func (x *BSExchange) Close() error                                { return nil }

func (x *BSExchange) NotifyNewBlocks(context.Context, ...blocks.Block) error {
	x.mu.Lock()
	x.Notified++
	x.mu.Unlock()
	return nil
}

func (x *BSExchange) GetBlock(ctx context.Context, c cid.Cid) (blocks.Block, error) {
	ch, err := x.GetBlocks(ctx, []cid.Cid{c})
	if err != nil {
		return nil, err
	}
	b, ok := <-ch
	if !ok {
		return nil, ctx.Err()
	}
	return b, nil
}

// Accepts is Bitswap's acceptance rule for received bytes.
func Accepts(want cid.Cid, data []byte) (ok bool, panicked string) {
	defer func() {
		if r := recover(); r != nil {
			panicked = fmt.Sprintf("%v\n%s", r, debug.Stack())
		}
	}()
	got, err := want.Prefix().Sum(data)
	return err == nil && got.Equals(want), ""
}

func (x *BSExchange) GetBlocks(ctx context.Context, cids []cid.Cid) (<-chan blocks.Block, error) {
	out := make(chan blocks.Block)
	x.mu.Lock()
	x.Calls++
	x.mu.Unlock()
	x.wg.Add(1)
	go func() {
		defer x.wg.Done()
		defer close(out)
		delivered := make(map[cid.Cid]bool, len(cids))
		alive := func() bool { return ctx.Err() == nil && (x.Ctl == nil || !x.Ctl.Ended()) }
		offer := func(c cid.Cid, data []byte) (accepted, gone bool) {
			ok, p := Accepts(c, data)
			if p != "" {
				x.mu.Lock()
				x.Panics = append(x.Panics, p)
				x.mu.Unlock()
				return false, false
			}
			if !ok {
				return false, false
			}
			b, err := blocks.NewBlockWithCid(data, c)
			if err != nil {
				return false, false
			}
			select {
			case out <- b:
				return true, false
			case <-ctx.Done():
				return false, true
			}
		}
		for round := 0; ; round++ {
			progressed := false
			for _, c := range cids {
				if delivered[c] {
					continue
				}
				x.mu.Lock()
				it := x.items[c]
				x.mu.Unlock()
				if it == nil {
					// unscripted want: an honest node answers once
					if round > 0 {
						continue
					}
					progressed = true
					x.mu.Lock()
					x.Unknown++
					x.Log = append(x.Log, "?<-unscripted-honest")
					x.mu.Unlock()
					if data, err := x.Serve(c); err == nil {
						acc, gone := offer(c, data)
						if gone {
							return
						}
						delivered[c] = acc
					}
					continue
				}
				if round >= len(it.Steps) {
					continue
				}
				progressed = true
				st := it.Steps[round]
				x.mu.Lock()
				x.Log = append(x.Log, fmt.Sprintf("%s<-%s", it.Desc, st.Kind))
				st.Reached = true
				x.mu.Unlock()
				switch {
				case st.Expire:
					if x.Ctl != nil {
						x.Ctl.End()
					}
					<-ctx.Done()
					return
				case st.Silent:
				default:
					a := alive()
					spare := time.Duration(1 << 62)
					if dl, ok := ctx.Deadline(); ok {
						spare = time.Until(dl)
					}
					acc, gone := offer(c, st.Data)
					x.mu.Lock()
					st.Offered, st.Accepted, st.CtxAlive, st.Spare = true, acc, a && !gone, spare
					if acc {
						it.Delivered = true
					}
					x.mu.Unlock()
					if gone {
						return
					}
					delivered[c] = acc
				}
			}
			all := true
			for _, c := range cids {
				all = all && delivered[c]
			}
			if all {
				return
			}
			if !progressed {
				x.mu.Lock()
				for _, c := range cids {
					if it := x.items[c]; it != nil && !delivered[c] {
						it.Exhausted = true
					}
				}
				x.Log = append(x.Log, "script-end")
				x.mu.Unlock()
				if x.Ctl != nil {
					x.Ctl.End()
				}
				<-ctx.Done()
				return
			}
		}
	}()
	return out, nil
}
