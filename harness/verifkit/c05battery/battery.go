// Package c05battery is the C05 "read battery": it reads a stored block through every read path
// of an eds.AccessorStreamer and compares what comes back with the reference matrix of the
// generated square (vk.Square.Ref) and with the square's roots (through the shwap verifiers).
//
// It is part of the /verif harnesses (overlay-only package, not part of celestia-node) and is
// shared by the C05 checks (store, store/file) and by C07 (crash recovery) and others.
package c05battery

import (
	"bytes"
	"context"
	"errors"
	"fmt"
	"io"
	"math/rand/v2"
	"runtime/debug"
	"sort"

	libshare "github.com/celestiaorg/go-square/v4/share"
	"github.com/celestiaorg/rsmt2d"

	vk "github.com/celestiaorg/celestia-node/internal/verifkit"
	"github.com/celestiaorg/celestia-node/share/eds"
	"github.com/celestiaorg/celestia-node/share/shwap"
)

// Opts tunes one battery run.
type Opts struct {
	// ID is the property id the failure messages start with ("C05" when empty).
	ID string
	// Seed seeds the PRNG that picks sampled coordinates, buffer sizes and the order of the
	// battery sections. It must come from a rapid-drawn value.
	Seed uint64
	// Validated says that the accessor checks its arguments (eds.WithValidation is in the stack):
	// out-of-bounds arguments must then return an error - never a value, never a panic.
	Validated bool
	// Extra is the number of PRNG-picked coordinates / axes on top of the fixed ones for squares
	// with ods > 4 (default 8).
	Extra int
	// Light skips the exhaustive parts (all coordinates for small squares become corners +
	// padded cells + Extra, the reader is drained once).
	Light bool
}

type battery struct {
	ctx context.Context
	acc eds.AccessorStreamer
	sq  *vk.Square
	o   Opts
	rng *rand.Rand
	id  string
}

// ReadBattery runs every read path of acc and returns a description of the first deviation from
// the reference square, or nil. The accessor is not closed.
func ReadBattery(ctx context.Context, acc eds.AccessorStreamer, sq *vk.Square, o Opts) error {
	if o.ID == "" {
		o.ID = "C05"
	}
	if o.Extra == 0 {
		o.Extra = 8
	}
	b := &battery{ctx: ctx, acc: acc, sq: sq, o: o, id: o.ID,
		rng: rand.New(rand.NewPCG(o.Seed, 0xC05BA77E))}
	sections := []struct {
		name string
		fn   func() error
	}{
		{"meta", b.meta}, {"samples", b.samples}, {"halves", b.halves}, {"namespaces", b.namespaces},
		{"ranges", b.ranges}, {"shares", b.shares}, {"reader", b.reader},
	}
	// the caches below the accessor (file ODS cache, proofs cache) make the result of one read
	// depend on the reads before it: vary the order
	b.rng.Shuffle(len(sections), func(i, j int) { sections[i], sections[j] = sections[j], sections[i] })
	for _, s := range sections {
		if err := s.fn(); err != nil {
			return err
		}
		vk.Count("battery_section:"+s.name, 1)
	}
	if o.Validated {
		if err := b.outOfBounds(); err != nil {
			return err
		}
	}
	return nil
}

func (b *battery) errf(what, format string, a ...any) error {
	return fmt.Errorf("%s: %s on [%s]: %s", b.id, what, b.sq.Desc(), fmt.Sprintf(format, a...))
}

// guard runs fn and turns a panic of the code under test into an error.
func (b *battery) guard(what string, fn func() error) (err error) {
	defer func() {
		if r := recover(); r != nil {
			err = b.errf(what, "expected a value or an error, observed a panic: %v\n%s", r, debug.Stack())
		}
	}()
	return fn()
}

// ---------------------------------------------------------------------------------------------

func (b *battery) meta() error {
	sq := b.sq
	return b.guard("Size/DataHash/AxisRoots", func() error {
		size, err := b.acc.Size(b.ctx)
		if err != nil {
			return b.errf("Size()", "expected %d, observed error %v", sq.Width(), err)
		}
		if size != sq.Width() {
			return b.errf("Size()", "expected %d, observed %d", sq.Width(), size)
		}
		dh, err := b.acc.DataHash(b.ctx)
		if err != nil {
			return b.errf("DataHash()", "expected %X, observed error %v", sq.Roots.Hash(), err)
		}
		if !bytes.Equal(dh, sq.Roots.Hash()) {
			return b.errf("DataHash()", "expected %X, observed %X", sq.Roots.Hash(), []byte(dh))
		}
		roots, err := b.acc.AxisRoots(b.ctx)
		if err != nil {
			return b.errf("AxisRoots()", "expected the roots of the stored square, observed error %v", err)
		}
		if roots == nil || len(roots.RowRoots) != sq.Width() || len(roots.ColumnRoots) != sq.Width() {
			return b.errf("AxisRoots()", "expected %d row and column roots, observed %v", sq.Width(), roots)
		}
		for i := 0; i < sq.Width(); i++ {
			if !bytes.Equal(roots.RowRoots[i], sq.Roots.RowRoots[i]) {
				return b.errf("AxisRoots()", "row root %d: expected %X, observed %X", i, sq.Roots.RowRoots[i], roots.RowRoots[i])
			}
			if !bytes.Equal(roots.ColumnRoots[i], sq.Roots.ColumnRoots[i]) {
				return b.errf("AxisRoots()", "column root %d: expected %X, observed %X", i, sq.Roots.ColumnRoots[i], roots.ColumnRoots[i])
			}
		}
		return nil
	})
}

// Coordinates returns the coordinates the battery samples for sq: all of them for ods <= 4
// (unless light), otherwise the corners of the four quadrants, the cells around the start of the
// tail padding mirrored into every quadrant, and extra PRNG-picked ones.
func Coordinates(sq *vk.Square, rng *rand.Rand, extra int, light bool) []shwap.SampleCoords {
	w, ods := sq.Width(), sq.ODS
	var out []shwap.SampleCoords
	if ods <= 4 && !light {
		for r := 0; r < w; r++ {
			for c := 0; c < w; c++ {
				out = append(out, shwap.SampleCoords{Row: r, Col: c})
			}
		}
		return out
	}
	seen := map[shwap.SampleCoords]bool{}
	add := func(r, c int) {
		k := shwap.SampleCoords{Row: r, Col: c}
		if r < 0 || c < 0 || r >= w || c >= w || seen[k] {
			return
		}
		seen[k] = true
		out = append(out, k)
	}
	for _, r0 := range []int{0, ods} {
		for _, c0 := range []int{0, ods} {
			add(r0, c0)
			add(r0, c0+ods-1)
			add(r0+ods-1, c0)
			add(r0+ods-1, c0+ods-1)
		}
	}
	if sq.Tail > 0 {
		first := ods*ods - sq.Tail
		for _, i := range []int{first - 1, first, ods*ods - 1} {
			if i < 0 {
				continue
			}
			r, c := i/ods, i%ods
			add(r, c)
			add(r, c+ods)
			add(r+ods, c)
			add(r+ods, c+ods)
		}
	}
	for i := 0; i < extra; i++ {
		add(rng.IntN(w), rng.IntN(w))
	}
	return out
}

func quadrant(sq *vk.Square, r, c int) int {
	q := 1
	if c >= sq.ODS {
		q++
	}
	if r >= sq.ODS {
		q += 2
	}
	return q
}

func (b *battery) samples() error {
	sq := b.sq
	for _, co := range Coordinates(sq, b.rng, b.o.Extra, b.o.Light) {
		what := fmt.Sprintf("Sample(row=%d,col=%d) [quadrant %d]", co.Row, co.Col, quadrant(sq, co.Row, co.Col))
		err := b.guard(what, func() error {
			smpl, err := b.acc.Sample(b.ctx, co)
			if err != nil {
				return b.errf(what, "expected the committed share, observed error %v", err)
			}
			if !bytes.Equal(smpl.ToBytes(), sq.RefShare(co.Row, co.Col)) {
				return b.errf(what, "expected the committed share %.24X.., observed %.24X..", sq.RefShare(co.Row, co.Col), smpl.ToBytes())
			}
			if err := smpl.Verify(sq.Roots, co.Row, co.Col); err != nil {
				return b.errf(what, "expected a sample that verifies against the roots, observed verification error %v (proof type %d)", err, smpl.ProofType)
			}
			return nil
		})
		if err != nil {
			return err
		}
		vk.Count(fmt.Sprintf("battery_samples_q%d", quadrant(sq, co.Row, co.Col)), 1)
	}
	return nil
}

func (b *battery) axisIndices() []int {
	w, ods := b.sq.Width(), b.sq.ODS
	if ods <= 4 && !b.o.Light {
		out := make([]int, w)
		for i := range out {
			out[i] = i
		}
		return out
	}
	set := map[int]bool{0: true, ods - 1: true, ods: true, w - 1: true}
	if b.sq.Tail > 0 {
		first := ods*ods - b.sq.Tail
		set[first/ods] = true
		set[first/ods+ods] = true
		set[first%ods] = true
		set[first%ods+ods] = true
	}
	for i := 0; i < max(2, b.o.Extra/4); i++ {
		set[b.rng.IntN(w)] = true
	}
	out := make([]int, 0, len(set))
	for i := range set {
		out = append(out, i)
	}
	sort.Ints(out)
	return out
}

func (b *battery) refAxis(axis rsmt2d.Axis, idx int) [][]byte {
	w := b.sq.Width()
	out := make([][]byte, w)
	for i := 0; i < w; i++ {
		if axis == rsmt2d.Row {
			out[i] = b.sq.Ref[idx][i]
		} else {
			out[i] = b.sq.Ref[i][idx]
		}
	}
	return out
}

func (b *battery) halves() error {
	sq := b.sq
	for _, axis := range []rsmt2d.Axis{rsmt2d.Row, rsmt2d.Col} {
		for _, idx := range b.axisIndices() {
			what := fmt.Sprintf("AxisHalf(axis=%d,idx=%d)", axis, idx)
			err := b.guard(what, func() error {
				half, err := b.acc.AxisHalf(b.ctx, axis, idx)
				if err != nil {
					return b.errf(what, "expected one half of the axis, observed error %v", err)
				}
				ref := b.refAxis(axis, idx)
				want := ref[:sq.ODS]
				if half.IsParity {
					want = ref[sq.ODS:]
				}
				if err := vk.SharesBytesEqual(half.Shares, want); err != nil {
					return b.errf(what, "expected the committed %s half (parity=%v), observed: %v", axisName(axis), half.IsParity, err)
				}
				full, err := half.Extended()
				if err != nil {
					return b.errf(what, "the returned half cannot be extended: %v", err)
				}
				if err := vk.SharesBytesEqual(full, ref); err != nil {
					return b.errf(what, "the returned half extends to something else than the committed axis: %v", err)
				}
				if axis == rsmt2d.Row {
					row := half.ToRow()
					if err := row.Verify(sq.Roots, idx); err != nil {
						return b.errf(what, "expected a row half that verifies against the row root, observed %v", err)
					}
				}
				return nil
			})
			if err != nil {
				return err
			}
			vk.Count("battery_axis_halves", 1)
		}
	}
	return nil
}

func axisName(a rsmt2d.Axis) string {
	if a == rsmt2d.Row {
		return "row"
	}
	return "column"
}

// NSCase is one namespace the battery asks for.
type NSCase struct {
	NS    libshare.Namespace
	Class string
	// Reject: not a data namespace (tail padding, parity): the validated stack must refuse it.
	Reject bool
}

// Namespaces lists the namespace classes for sq: every namespace present (reserved ones
// included), absent ones inside the range of the square, below and above it, reserved namespaces
// that are absent, and the two namespaces that are not data namespaces.
func Namespaces(sq *vk.Square, rng *rand.Rand, light bool) []NSCase {
	var out []NSCase
	have := map[string]bool{}
	for _, ns := range sq.NamespacesPresent() {
		have[string(ns.Bytes())] = true
		switch {
		case ns.IsTailPadding():
			// asked for below as a namespace that must be refused
		case ns.IsReserved():
			out = append(out, NSCase{NS: ns, Class: "present-reserved"})
		default:
			out = append(out, NSCase{NS: ns, Class: "present"})
		}
	}
	if light && len(out) > 3 {
		rng.Shuffle(len(out), func(i, j int) { out[i], out[j] = out[j], out[i] })
		out = out[:3]
	}
	nOdd := 7
	if light || sq.ODS > 8 {
		nOdd = 2
	}
	for _, i := range rng.Perm(7)[:nOdd] {
		out = append(out, NSCase{NS: vk.OddNS(i), Class: "absent-in-range"})
	}
	out = append(out, NSCase{NS: vk.LowNS(), Class: "below"}, NSCase{NS: vk.HighNS(), Class: "above"})
	for _, ns := range []libshare.Namespace{libshare.TxNamespace, libshare.PayForBlobNamespace, libshare.PrimaryReservedPaddingNamespace} {
		if !have[string(ns.Bytes())] {
			out = append(out, NSCase{NS: ns, Class: "absent-reserved"})
		}
	}
	out = append(out,
		NSCase{NS: libshare.TailPaddingNamespace, Class: "tail-padding", Reject: true},
		NSCase{NS: libshare.ParitySharesNamespace, Class: "parity", Reject: true})
	return out
}

func (b *battery) refRowNamespace(row int, ns libshare.Namespace) [][]byte {
	var out [][]byte
	for c := 0; c < b.sq.ODS; c++ {
		if bytes.Equal(b.sq.Ref[row][c][:libshare.NamespaceSize], ns.Bytes()) {
			out = append(out, b.sq.Ref[row][c])
		}
	}
	return out
}

func (b *battery) namespaces() error {
	sq := b.sq
	for _, nc := range Namespaces(sq, b.rng, b.o.Light) {
		if nc.Reject {
			continue // see outOfBounds
		}
		ns := nc.NS
		rows := sq.RefRowsCovering(ns)
		what := fmt.Sprintf("NamespaceData(ns=%s class=%s)", vk.NsShort(ns), nc.Class)
		err := b.guard(what, func() error {
			nd, err := eds.NamespaceData(b.ctx, b.acc, ns)
			if err != nil {
				return b.errf(what, "expected the data of %d row(s), observed error %v", len(rows), err)
			}
			if len(nd) != len(rows) {
				return b.errf(what, "expected one entry for each of the rows %v whose range covers the namespace, observed %d entries", rows, len(nd))
			}
			if err := nd.Verify(sq.Roots, ns); err != nil {
				return b.errf(what, "expected namespace data that verifies against the roots, observed %v", err)
			}
			if err := vk.SharesBytesEqual(nd.Flatten(), sq.RefNamespace(ns)); err != nil {
				return b.errf(what, "expected exactly the %d committed shares of the namespace in order, observed: %v", len(sq.RefNamespace(ns)), err)
			}
			for i, r := range rows {
				if err := vk.SharesBytesEqual(nd[i].Shares, b.refRowNamespace(r, ns)); err != nil {
					return b.errf(what, "entry %d (row %d): %v", i, r, err)
				}
			}
			return nil
		})
		if err != nil {
			return err
		}
		vk.Count("battery_ns:"+nc.Class, 1)

		// the row-level call: rows that cover the namespace, one ODS row that does not, one parity row
		ask := map[int]bool{}
		if len(rows) > 0 {
			ask[rows[0]] = true
			ask[rows[len(rows)-1]] = true
			ask[rows[b.rng.IntN(len(rows))]] = true
		}
		covering := map[int]bool{}
		for _, r := range rows {
			covering[r] = true
		}
		for r := 0; r < sq.ODS; r++ {
			if !covering[r] {
				ask[r] = true
				break
			}
		}
		ask[sq.ODS+b.rng.IntN(sq.ODS)] = true
		asked := make([]int, 0, len(ask))
		for r := range ask {
			asked = append(asked, r)
		}
		sort.Ints(asked)
		for _, r := range asked {
			what := fmt.Sprintf("RowNamespaceData(ns=%s class=%s,row=%d)", vk.NsShort(ns), nc.Class, r)
			err := b.guard(what, func() error {
				rnd, err := b.acc.RowNamespaceData(b.ctx, ns, r)
				if !covering[r] {
					// the row holds nothing of the namespace and cannot prove it either: an error
					// (ErrNamespaceOutsideRange) or an empty container; never shares
					if err == nil && len(rnd.Shares) != 0 {
						return b.errf(what, "the row's range does not cover the namespace: expected an error or no shares, observed %d shares", len(rnd.Shares))
					}
					return nil
				}
				if err != nil {
					return b.errf(what, "expected the namespace's shares of the row (or an absence proof), observed error %v", err)
				}
				if err := vk.SharesBytesEqual(rnd.Shares, b.refRowNamespace(r, ns)); err != nil {
					return b.errf(what, "expected the committed shares of the namespace in this row, observed: %v", err)
				}
				if err := rnd.Verify(sq.Roots, ns, r); err != nil {
					return b.errf(what, "expected row namespace data that verifies against the row root, observed %v", err)
				}
				return nil
			})
			if err != nil {
				return err
			}
			vk.Count("battery_rownd", 1)
		}
	}
	return nil
}

func (b *battery) ranges() error {
	sq := b.sq
	ods, area := sq.ODS, sq.ODS*sq.ODS
	anchors := []int{0, area - 1}
	if sq.Tail > 0 {
		anchors = append(anchors, area-sq.Tail)
		if area-sq.Tail-1 >= 0 {
			anchors = append(anchors, area-sq.Tail-1)
		}
	}
	for i := 0; i < max(2, b.o.Extra/3); i++ {
		anchors = append(anchors, b.rng.IntN(area))
	}
	type rg struct{ from, to int }
	seen := map[rg]bool{}
	for _, a := range anchors {
		lo, hi := sq.NSStretch(a)
		cands := []rg{{lo, hi}, {a, a + 1}, {lo, a + 1}, {a, hi}}
		f := lo + b.rng.IntN(hi-lo)
		cands = append(cands, rg{f, f + 1 + b.rng.IntN(hi-f)})
		for _, r := range cands {
			if seen[r] {
				continue
			}
			seen[r] = true
			from, to := r.from, r.to
			fc := shwap.SampleCoords{Row: from / ods, Col: from % ods}
			tc := shwap.SampleCoords{Row: (to - 1) / ods, Col: (to - 1) % ods}
			what := fmt.Sprintf("RangeNamespaceData(from=%d,to=%d) [ns=%s]", from, to, vk.NsShort(sq.Shares[from].Namespace()))
			err := b.guard(what, func() error {
				rng, err := b.acc.RangeNamespaceData(b.ctx, from, to)
				if err != nil {
					return b.errf(what, "expected the %d shares of the range, observed error %v", to-from, err)
				}
				want := make([][]byte, 0, to-from)
				for i := from; i < to; i++ {
					want = append(want, sq.Ref[i/ods][i%ods])
				}
				if err := vk.SharesBytesEqual(rng.Flatten(), want); err != nil {
					return b.errf(what, "expected exactly the committed shares [%d,%d), observed: %v", from, to, err)
				}
				if len(rng.Shares) != tc.Row-fc.Row+1 {
					return b.errf(what, "expected shares grouped into %d rows, observed %d", tc.Row-fc.Row+1, len(rng.Shares))
				}
				if err := rng.VerifyInclusion(fc, tc, ods, sq.Roots.RowRoots[fc.Row:tc.Row+1]); err != nil {
					return b.errf(what, "expected range data that verifies against the row roots, observed %v", err)
				}
				return nil
			})
			if err != nil {
				return err
			}
			vk.Count("battery_ranges", 1)
		}
	}
	return nil
}

func (b *battery) refODS() [][]byte {
	ods := b.sq.ODS
	out := make([][]byte, 0, ods*ods)
	for r := 0; r < ods; r++ {
		out = append(out, b.sq.Ref[r][:ods]...)
	}
	return out
}

func (b *battery) shares() error {
	return b.guard("Shares()", func() error {
		shrs, err := b.acc.Shares(b.ctx)
		if err != nil {
			return b.errf("Shares()", "expected the %d shares of the original square, observed error %v", b.sq.ODS*b.sq.ODS, err)
		}
		if err := vk.SharesBytesEqual(shrs, b.refODS()); err != nil {
			return b.errf("Shares()", "expected the original square in row-major order, observed: %v", err)
		}
		return nil
	})
}

var oddSizes = []int{1, 2, 3, 7, 31, 255, 511, 512, 513, 1023, 1025, 1537, 2047, 2048, 2051}

// drain reads r to the end with the given buffer-size policy.
func drain(r io.Reader, limit int, next func() int) ([]byte, error) {
	var out []byte
	zero := 0
	for {
		n := next()
		buf := make([]byte, n)
		got, err := r.Read(buf)
		if got < 0 || got > n {
			return out, fmt.Errorf("Read returned n=%d for a buffer of %d bytes", got, n)
		}
		out = append(out, buf[:got]...)
		if len(out) > limit {
			return out, fmt.Errorf("stream is longer than the original square (%d > %d bytes)", len(out), limit)
		}
		if err == io.EOF {
			return out, nil
		}
		if err != nil {
			return out, err
		}
		if got == 0 {
			zero++
			if zero > 10000 {
				return out, errors.New("Read keeps returning (0, nil)")
			}
		} else {
			zero = 0
		}
	}
}

func (b *battery) reader() error {
	sq := b.sq
	total := sq.ODS * sq.ODS * libshare.ShareSize
	policies := []struct {
		name string
		next func() int
	}{}
	k := oddSizes[b.rng.IntN(len(oddSizes))]
	if total > 64*1024 && k < 31 {
		k = 31 + 2*b.rng.IntN(1000)
	}
	policies = append(policies, struct {
		name string
		next func() int
	}{fmt.Sprintf("fixed buffer of %d bytes", k), func() int { return k }})
	if !b.o.Light {
		policies = append(policies, struct {
			name string
			next func() int
		}{"varying buffers of 1..2051 bytes", func() int {
			if b.rng.IntN(4) == 0 {
				return 1 + b.rng.IntN(4*libshare.ShareSize+3)
			}
			return oddSizes[b.rng.IntN(len(oddSizes))]
		}})
	}
	for _, p := range policies {
		what := "Reader() drained with " + p.name
		err := b.guard(what, func() error {
			r, err := b.acc.Reader()
			if err != nil {
				return b.errf(what, "expected a stream of the original square, observed error %v", err)
			}
			raw, err := drain(r, total, p.next)
			if err != nil {
				return b.errf(what, "expected the stream to end with io.EOF after at most %d bytes, observed %v (after %d bytes)", total, err, len(raw))
			}
			// the documented consumer of the stream: shares until EOF, the rest is tail padding
			shrs, err := eds.ReadShares(bytes.NewReader(raw), libshare.ShareSize, sq.ODS)
			if err != nil {
				return b.errf(what, "expected a stream eds.ReadShares decodes, observed %v (stream of %d bytes)", err, len(raw))
			}
			if err := vk.SharesBytesEqual(shrs, b.refODS()); err != nil {
				return b.errf(what, "expected the stream to decode to the original square, observed: %v (stream of %d bytes)", err, len(raw))
			}
			return nil
		})
		if err != nil {
			return err
		}
		vk.Count("battery_reader_drains", 1)
	}
	return nil
}

// outOfBounds feeds arguments outside the square to every indexed method.
func (b *battery) outOfBounds() error {
	sq := b.sq
	w, area := sq.Width(), sq.ODS*sq.ODS
	huge := 1 << 40
	mustErr := func(what string, call func() (any, error)) error {
		return b.guard(what, func() error {
			v, err := call()
			if err == nil {
				return b.errf(what, "argument is outside the square: expected an error, observed a value (%.80v)", v)
			}
			vk.Count("battery_oob_rejected", 1)
			return nil
		})
	}
	for _, co := range []shwap.SampleCoords{
		{Row: w, Col: 0}, {Row: 0, Col: w}, {Row: w, Col: w}, {Row: w + 1, Col: 1}, {Row: 1, Col: w + 1},
		{Row: -1, Col: 0}, {Row: 0, Col: -1}, {Row: huge, Col: 0}, {Row: 0, Col: huge}, {Row: w * w, Col: w * w},
		{Row: w - 1, Col: w}, {Row: w, Col: w - 1},
	} {
		if err := mustErr(fmt.Sprintf("Sample(row=%d,col=%d) [out of bounds, width %d]", co.Row, co.Col, w), func() (any, error) {
			s, err := b.acc.Sample(b.ctx, co)
			return s.Share, err
		}); err != nil {
			return err
		}
	}
	for _, axis := range []rsmt2d.Axis{rsmt2d.Row, rsmt2d.Col} {
		for _, idx := range []int{w, w + 1, -1, huge, -huge} {
			if err := mustErr(fmt.Sprintf("AxisHalf(axis=%d,idx=%d) [out of bounds, width %d]", axis, idx, w), func() (any, error) {
				h, err := b.acc.AxisHalf(b.ctx, axis, idx)
				return len(h.Shares), err
			}); err != nil {
				return err
			}
		}
	}
	okNS := vk.BlobNS(0)
	if p := sq.NamespacesPresent(); !p[0].IsTailPadding() {
		okNS = p[0]
	}
	for _, idx := range []int{w, w + 1, -1, huge} {
		if err := mustErr(fmt.Sprintf("RowNamespaceData(ns=%s,row=%d) [out of bounds, width %d]", vk.NsShort(okNS), idx, w), func() (any, error) {
			r, err := b.acc.RowNamespaceData(b.ctx, okNS, idx)
			return len(r.Shares), err
		}); err != nil {
			return err
		}
	}
	for _, ns := range []libshare.Namespace{libshare.TailPaddingNamespace, libshare.ParitySharesNamespace} {
		for _, row := range []int{0, sq.ODS - 1, sq.ODS, w - 1} {
			if err := mustErr(fmt.Sprintf("RowNamespaceData(ns=%s,row=%d) [not a data namespace]", vk.NsShort(ns), row), func() (any, error) {
				r, err := b.acc.RowNamespaceData(b.ctx, ns, row)
				return len(r.Shares), err
			}); err != nil {
				return err
			}
		}
	}
	for _, r := range [][2]int{
		{-1, 1}, {0, 0}, {1, 1}, {area, area}, {2, 1}, {area - 1, 0}, {0, area + 1}, {area - 1, area + 1}, {area, area + 1},
		{area + 1, area + 2}, {0, huge}, {huge, huge + 1}, {-huge, 1}, {-2, -1}, {0, -1},
	} {
		if err := mustErr(fmt.Sprintf("RangeNamespaceData(from=%d,to=%d) [invalid range, %d shares]", r[0], r[1], area), func() (any, error) {
			d, err := b.acc.RangeNamespaceData(b.ctx, r[0], r[1])
			return len(d.Shares), err
		}); err != nil {
			return err
		}
	}
	return nil
}

// CheckClosed verifies that every method of a closed close-once accessor returns an error.
func CheckClosed(ctx context.Context, id string, acc eds.AccessorStreamer) (err error) {
	defer func() {
		if r := recover(); r != nil {
			err = fmt.Errorf("%s: closed accessor: expected errors, observed a panic: %v\n%s", id, r, debug.Stack())
		}
	}()
	bad := func(m string) error {
		return fmt.Errorf("%s: %s on a closed close-once accessor: expected an error, observed a value", id, m)
	}
	if _, e := acc.Size(ctx); e == nil {
		return bad("Size")
	}
	if _, e := acc.DataHash(ctx); e == nil {
		return bad("DataHash")
	}
	if _, e := acc.AxisRoots(ctx); e == nil {
		return bad("AxisRoots")
	}
	if _, e := acc.Sample(ctx, shwap.SampleCoords{}); e == nil {
		return bad("Sample")
	}
	if _, e := acc.AxisHalf(ctx, rsmt2d.Row, 0); e == nil {
		return bad("AxisHalf")
	}
	if _, e := acc.RowNamespaceData(ctx, vk.BlobNS(0), 0); e == nil {
		return bad("RowNamespaceData")
	}
	if _, e := acc.Shares(ctx); e == nil {
		return bad("Shares")
	}
	if _, e := acc.RangeNamespaceData(ctx, 0, 1); e == nil {
		return bad("RangeNamespaceData")
	}
	if _, e := acc.Reader(); e == nil {
		return bad("Reader")
	}
	return nil
}

// TailBucket classifies the amount of tail padding of a square.
func TailBucket(sq *vk.Square) string {
	area := sq.ODS * sq.ODS
	switch {
	case sq.Empty:
		return "empty-block"
	case sq.Tail == 0:
		return "none"
	case sq.Tail == area-1:
		return "all-but-one"
	case sq.Tail%sq.ODS == 0:
		return "whole-rows"
	case sq.Tail < sq.ODS:
		return "lt-row"
	default:
		return "rows+part"
	}
}
