package verifkit

import (
	"bytes"

	"pgregory.net/rapid"
)

// C12CloneBytes deep-copies a list of byte strings (nil stays nil).
func C12CloneBytes(xs [][]byte) [][]byte {
	if xs == nil {
		return nil
	}
	out := make([][]byte, len(xs))
	for i, x := range xs {
		if x != nil {
			out[i] = append([]byte{}, x...)
		}
	}
	return out
}

// C12MutList applies one generated list tampering: append / drop / reorder / duplicate / nil /
// short / foreign element. donor (may be empty) supplies elements of another object.
func C12MutList(t *rapid.T, label string, xs, donor [][]byte) ([][]byte, string) {
	xs = C12CloneBytes(xs)
	elemLen := 32
	if len(xs) > 0 && len(xs[0]) > 0 {
		elemLen = len(xs[0])
	}
	op := rapid.SampledFrom([]string{
		"append-dup", "append-rand", "append-donor", "drop-first", "drop-last", "drop-mid", "swap", "dup",
		"nil-elem", "short-elem", "long-elem", "empty", "flip", "replace-donor", "all-donor",
	}).Draw(t, label+".op")
	pick := func() int { return rapid.IntRange(0, len(xs)-1).Draw(t, label+".i") }
	switch op {
	case "append-dup":
		if len(xs) == 0 {
			return append(xs, make([]byte, elemLen)), op
		}
		return append(xs, append([]byte(nil), xs[len(xs)-1]...)), op
	case "append-rand":
		return append(xs, rapid.SliceOfN(rapid.Byte(), elemLen, elemLen).Draw(t, label+".rnd")), op
	case "append-donor":
		if len(donor) == 0 {
			return append(xs, bytes.Repeat([]byte{0xAB}, elemLen)), op
		}
		return append(xs, append([]byte(nil), donor[rapid.IntRange(0, len(donor)-1).Draw(t, label+".d")]...)), op
	case "empty":
		if rapid.Bool().Draw(t, label+".nil") {
			return nil, op
		}
		return [][]byte{}, op
	case "all-donor":
		return C12CloneBytes(donor), op
	}
	if len(xs) == 0 {
		return append(xs, make([]byte, elemLen)), "append-zero"
	}
	switch op {
	case "drop-first":
		return xs[1:], op
	case "drop-last":
		return xs[:len(xs)-1], op
	case "drop-mid":
		i := pick()
		return append(xs[:i:i], xs[i+1:]...), op
	case "swap":
		i, j := pick(), rapid.IntRange(0, len(xs)-1).Draw(t, label+".j")
		xs[i], xs[j] = xs[j], xs[i]
		return xs, op
	case "dup":
		i := pick()
		out := append([][]byte{}, xs[:i+1]...)
		out = append(out, append([]byte(nil), xs[i]...))
		return append(out, xs[i+1:]...), op
	case "nil-elem":
		xs[pick()] = nil
		return xs, op
	case "short-elem":
		i := pick()
		xs[i] = xs[i][:rapid.IntRange(0, max(0, len(xs[i])-1)).Draw(t, label+".cut")]
		return xs, op
	case "long-elem":
		i := pick()
		xs[i] = append(xs[i], rapid.SliceOfN(rapid.Byte(), 1, 40).Draw(t, label+".ext")...)
		return xs, op
	case "flip":
		i := pick()
		if len(xs[i]) == 0 {
			xs[i] = []byte{1}
			return xs, op
		}
		xs[i][rapid.IntRange(0, len(xs[i])-1).Draw(t, label+".pos")] ^= 1 << uint(rapid.IntRange(0, 7).Draw(t, label+".bit"))
		return xs, op
	default: // replace-donor
		i := pick()
		if len(donor) == 0 {
			xs[i] = bytes.Repeat([]byte{0xCD}, elemLen)
			return xs, "replace-const"
		}
		xs[i] = append([]byte(nil), donor[rapid.IntRange(0, len(donor)-1).Draw(t, label+".d")]...)
		return xs, op
	}
}


// C12MutateJSON tampers with a JSON document in ways that mostly keep it decodable (unlike
// MutateBytes, which usually breaks the syntax): a string / object / number replaced by null, a
// character of a base64 or hex string replaced by another one of the same alphabet, a digit
// changed, an array element duplicated or dropped. With probability 1/4 it falls back to
// MutateBytes. The returned kind names the tampering. Numbers stay within +-2^40: verifiers whose
// work grows with a stated range are judged by fixed, allocation-bounded witnesses, not by feeding
// them 2^63 (which would exhaust the machine's memory on a tree without the guard).
func C12MutateJSON(t *rapid.T, label string, in []byte) ([]byte, string) {
	if len(in) == 0 || rapid.IntRange(0, 3).Draw(t, label+".raw") == 0 {
		out, k := MutateBytes(t, label+".bytes", in, nil)
		return out, "bytes-" + k
	}
	type span struct{ from, to int } // [from,to)
	var strs, objs, nums []span
	var stack []int
	for i := 0; i < len(in); i++ {
		switch c := in[i]; {
		case c == '"':
			j := i + 1
			for j < len(in) && in[j] != '"' {
				if in[j] == '\\' {
					j++
				}
				j++
			}
			if j < len(in) {
				// keys are followed by ':'; only values are candidates
				if !(j+1 < len(in) && in[j+1] == ':') {
					strs = append(strs, span{i, j + 1})
				}
			}
			i = j
		case c == '{':
			stack = append(stack, i)
		case c == '}':
			if len(stack) > 0 {
				from := stack[len(stack)-1]
				stack = stack[:len(stack)-1]
				if len(stack) > 0 { // not the whole document
					objs = append(objs, span{from, i + 1})
				}
			}
		case c >= '0' && c <= '9' || c == '-':
			j := i
			for j < len(in) && (in[j] >= '0' && in[j] <= '9' || in[j] == '-') {
				j++
			}
			nums = append(nums, span{i, j})
			i = j - 1
		}
	}
	replace := func(s span, with []byte) []byte {
		out := append([]byte(nil), in[:s.from]...)
		out = append(out, with...)
		return append(out, in[s.to:]...)
	}
	pick := func(xs []span, l string) span { return xs[rapid.IntRange(0, len(xs)-1).Draw(t, label+l)] }
	kind := rapid.SampledFrom([]string{"str-null", "obj-null", "str-char", "str-char", "str-empty", "num", "num-null", "obj-dup", "obj-drop", "str-dup"}).Draw(t, label+".kind")
	switch kind {
	case "str-null":
		if len(strs) > 0 {
			return replace(pick(strs, ".s"), []byte("null")), kind
		}
	case "str-empty":
		if len(strs) > 0 {
			return replace(pick(strs, ".s"), []byte(`""`)), kind
		}
	case "str-char":
		var cands []span
		for _, s := range strs {
			if s.to-s.from > 2 {
				cands = append(cands, s)
			}
		}
		if len(cands) > 0 {
			s := pick(cands, ".s")
			out := append([]byte(nil), in...)
			pos := rapid.IntRange(s.from+1, s.to-2).Draw(t, label+".pos")
			const alpha = "ABCDEFGHIJKLMNOPQRSTUVWXYZabcdefghijklmnopqrstuvwxyz0123456789+/"
			c := alpha[rapid.IntRange(0, len(alpha)-1).Draw(t, label+".ch")]
			if c == out[pos] {
				c = alpha[(rapid.IntRange(0, len(alpha)-1).Draw(t, label+".ch2")+1)%len(alpha)]
			}
			out[pos] = c
			return out, kind
		}
	case "obj-null":
		if len(objs) > 0 {
			return replace(pick(objs, ".o"), []byte("null")), kind
		}
	case "obj-dup":
		if len(objs) > 0 {
			o := pick(objs, ".o")
			dup := append(append([]byte(nil), in[o.from:o.to]...), ',')
			return replace(span{o.from, o.from}, dup), kind
		}
	case "str-dup":
		if len(strs) > 0 {
			o := pick(strs, ".s")
			dup := append(append([]byte(nil), in[o.from:o.to]...), ',')
			return replace(span{o.from, o.from}, dup), kind
		}
	case "obj-drop":
		if len(objs) > 0 {
			o := pick(objs, ".o")
			to := o.to
			if to < len(in) && in[to] == ',' {
				to++
			}
			return replace(span{o.from, to}, nil), kind
		}
	case "num", "num-null":
		if len(nums) > 0 {
			n := pick(nums, ".n")
			if kind == "num-null" {
				return replace(n, []byte("null")), kind
			}
			v := rapid.SampledFrom([]string{"0", "1", "-1", "2", "7", "255", "65536", "2147483647", "2147483648", "4294967295", "4294967296", "1099511627776", "-1099511627776"}).Draw(t, label+".v")
			return replace(n, []byte(v)), kind
		}
	}
	out, k := MutateBytes(t, label+".bytes", in, nil)
	return out, "bytes-" + k
}
