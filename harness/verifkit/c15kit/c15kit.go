// Package c15kit holds what the two C15 harnesses (core listener path, full availability path)
// share: a compact read check of a stored block against a reference matrix, and the two
// store-fault injectors that work from outside the store (descriptor budget, vanished height
// index directory). It is not part of celestia-node: the driver injects it as an overlay-only
// package at <repo>/internal/verifkit/c15kit.
package c15kit

import (
	"bytes"
	"context"
	"fmt"
	"os"
	"sort"
	"strconv"
	"syscall"

	"github.com/celestiaorg/rsmt2d"

	"github.com/celestiaorg/celestia-node/share"
	"github.com/celestiaorg/celestia-node/share/eds"
	"github.com/celestiaorg/celestia-node/share/shwap"
)

// RefMatrix copies a square into plain bytes: ref[row][col].
func RefMatrix(sq *rsmt2d.ExtendedDataSquare) [][][]byte {
	w := int(sq.Width())
	ref := make([][][]byte, w)
	for r := 0; r < w; r++ {
		ref[r] = make([][]byte, w)
		for c := 0; c < w; c++ {
			ref[r][c] = append([]byte(nil), sq.GetCell(uint(r), uint(c))...)
		}
	}
	return ref
}

// RootsEqual compares two data availability headers root by root.
func RootsEqual(a, b *share.AxisRoots) bool {
	if a == nil || b == nil {
		return false
	}
	if len(a.RowRoots) != len(b.RowRoots) || len(a.ColumnRoots) != len(b.ColumnRoots) {
		return false
	}
	for i := range a.RowRoots {
		if !bytes.Equal(a.RowRoots[i], b.RowRoots[i]) {
			return false
		}
	}
	for i := range a.ColumnRoots {
		if !bytes.Equal(a.ColumnRoots[i], b.ColumnRoots[i]) {
			return false
		}
	}
	return true
}

// ReadCheck reads a stored block through its accessor and compares with the reference:
// size, data hash, axis roots == roots, the ODS shares, and a sample (share bytes + proof against
// roots) at each coordinate.
func ReadCheck(
	ctx context.Context,
	acc eds.Accessor,
	ref [][][]byte,
	roots *share.AxisRoots,
	coords []shwap.SampleCoords,
) error {
	w := len(ref)
	ods := w / 2
	if size, err := acc.Size(ctx); err != nil || size != w {
		return fmt.Errorf("Size = %d, %v; expected %d", size, err, w)
	}
	if dh, err := acc.DataHash(ctx); err != nil || !bytes.Equal(dh, roots.Hash()) {
		return fmt.Errorf("DataHash = %X, %v; expected %X", []byte(dh), err, roots.Hash())
	}
	got, err := acc.AxisRoots(ctx)
	if err != nil || !RootsEqual(got, roots) {
		return fmt.Errorf("stored AxisRoots differ from the header's data availability header (err %v)", err)
	}
	shares, err := acc.Shares(ctx)
	if err != nil {
		return fmt.Errorf("Shares: %v", err)
	}
	if len(shares) != ods*ods {
		return fmt.Errorf("Shares returned %d shares, expected %d", len(shares), ods*ods)
	}
	for i, s := range shares {
		if !bytes.Equal(s.ToBytes(), ref[i/ods][i%ods]) {
			return fmt.Errorf("stored ODS share %d (row %d col %d) differs from the block's square", i, i/ods, i%ods)
		}
	}
	for _, c := range coords {
		smp, err := acc.Sample(ctx, c)
		if err != nil {
			return fmt.Errorf("Sample(%d,%d): %v", c.Row, c.Col, err)
		}
		if !bytes.Equal(smp.Share.ToBytes(), ref[c.Row][c.Col]) {
			return fmt.Errorf("Sample(%d,%d) is not the block's share at that position", c.Row, c.Col)
		}
		if err := smp.Verify(roots, c.Row, c.Col); err != nil {
			return fmt.Errorf("Sample(%d,%d) does not verify against the header's roots: %v", c.Row, c.Col, err)
		}
	}
	return nil
}

// QuadrantCoords returns one coordinate per quadrant chosen by pick(label, lo, hi) plus the far corner.
func QuadrantCoords(w int, pick func(label string, lo, hi int) int) []shwap.SampleCoords {
	h := w / 2
	return []shwap.SampleCoords{
		{Row: pick("q1r", 0, h-1), Col: pick("q1c", 0, h-1)},
		{Row: pick("q2r", 0, h-1), Col: pick("q2c", h, w-1)},
		{Row: pick("q3r", h, w-1), Col: pick("q3c", 0, h-1)},
		{Row: pick("q4r", h, w-1), Col: pick("q4c", h, w-1)},
		{Row: w - 1, Col: w - 1},
	}
}

// lowestFreeFDs returns the n lowest descriptor numbers that are not open in this process.
func lowestFreeFDs(n int) ([]int, error) {
	d, err := os.Open("/proc/self/fd")
	if err != nil {
		return nil, err
	}
	own := int(d.Fd())
	names, err := d.Readdirnames(-1)
	d.Close()
	if err != nil {
		return nil, err
	}
	used := make([]int, 0, len(names))
	for _, nm := range names {
		fd, err := strconv.Atoi(nm)
		if err != nil || fd == own {
			continue
		}
		used = append(used, fd)
	}
	sort.Ints(used)
	free := make([]int, 0, n)
	next, ui := 0, 0
	for len(free) < n {
		for ui < len(used) && used[ui] < next {
			ui++
		}
		if ui < len(used) && used[ui] == next {
			next++
			continue
		}
		free = append(free, next)
		next++
	}
	return free, nil
}

// WithOpenBudget runs fn while the soft RLIMIT_NOFILE is lowered so that exactly k further
// descriptors can be opened by this process (the (k+1)-th open fails with EMFILE); the limit is
// restored before WithOpenBudget returns. RLIMIT_NOFILE bounds the descriptor *number*, so the
// limit is placed at the (k+1)-th lowest free number. The caller must make sure nothing else in
// the process opens descriptors concurrently.
func WithOpenBudget(k int, fn func()) error {
	var old syscall.Rlimit
	if err := syscall.Getrlimit(syscall.RLIMIT_NOFILE, &old); err != nil {
		return fmt.Errorf("getrlimit: %w", err)
	}
	free, err := lowestFreeFDs(k + 1)
	if err != nil {
		return fmt.Errorf("listing descriptors: %w", err)
	}
	lim := syscall.Rlimit{Cur: uint64(free[k]), Max: old.Max}
	if lim.Cur > old.Cur {
		return fmt.Errorf("descriptor budget %d is above the current limit %d", lim.Cur, old.Cur)
	}
	if err := syscall.Setrlimit(syscall.RLIMIT_NOFILE, &lim); err != nil {
		return fmt.Errorf("setrlimit(%d): %w", lim.Cur, err)
	}
	defer func() {
		if err := syscall.Setrlimit(syscall.RLIMIT_NOFILE, &old); err != nil {
			panic(fmt.Sprintf("VERIF-INFRA: cannot restore RLIMIT_NOFILE: %v", err))
		}
	}()
	fn()
	return nil
}

// WithoutDir runs fn while the directory at path is renamed away (every create/link/stat below
// it fails with ENOENT) and puts it back afterwards.
func WithoutDir(path string, fn func()) error {
	away := path + ".c15-away"
	if err := os.Rename(path, away); err != nil {
		return err
	}
	defer func() {
		if err := os.Rename(away, path); err != nil {
			panic(fmt.Sprintf("VERIF-INFRA: cannot restore %s: %v", path, err))
		}
	}()
	fn()
	return nil
}

// ProbeOpenBudget checks on a scratch directory that WithOpenBudget(k) lets exactly k files be
// created. It also warms up everything in the runtime that opens descriptors lazily.
func ProbeOpenBudget(dir string) error {
	for k := 0; k <= 2; k++ {
		opened := 0
		var files []*os.File
		err := WithOpenBudget(k, func() {
			for i := 0; i < 4; i++ {
				f, err := os.OpenFile(fmt.Sprintf("%s/probe-%d-%d", dir, k, i), os.O_CREATE|os.O_WRONLY|os.O_EXCL, 0o600)
				if err != nil {
					break
				}
				files = append(files, f)
				opened++
			}
		})
		for _, f := range files {
			f.Close()
			os.Remove(f.Name())
		}
		if err != nil {
			return err
		}
		if opened != k {
			return fmt.Errorf("descriptor budget %d allowed %d opens", k, opened)
		}
	}
	return nil
}
