package verifkit

import (
	"bytes"
	"encoding/binary"
	"fmt"
	"math/rand/v2"
	"sort"
	"strings"

	"github.com/celestiaorg/celestia-app/v9/pkg/wrapper"
	libshare "github.com/celestiaorg/go-square/v4/share"
	"github.com/celestiaorg/rsmt2d"
	"pgregory.net/rapid"

	"github.com/celestiaorg/celestia-node/share"
)

// Run is a maximal generated group of shares of one namespace (one "blob" or one reserved
// sequence) in row-major ODS order. The last Pad shares of a run are padding shares.
type Run struct {
	NS    libshare.Namespace
	Start int // ODS row-major index of the first share
	Len   int
	Pad   int
}

// Square is a generated valid data square together with its reference model: Ref is the full
// extended square as plain bytes and is the only thing oracles index into.
type Square struct {
	ODS    int
	Tail   int // number of tail padding shares
	Runs   []Run
	Shares []libshare.Share // ODS shares, row-major
	EDS    *rsmt2d.ExtendedDataSquare
	Roots  *share.AxisRoots
	Ref    [][][]byte // Ref[row][col], full EDS
	Seed   uint64
	Empty  bool // the canonical empty block
}

// Width returns the EDS width.
func (s *Square) Width() int { return 2 * s.ODS }

// Desc is a canonical, short description of the layout (used for case hashes and samples).
func (s *Square) Desc() string {
	var b strings.Builder
	fmt.Fprintf(&b, "ods=%d tail=%d seed=%d runs=", s.ODS, s.Tail, s.Seed)
	for _, r := range s.Runs {
		fmt.Fprintf(&b, "[%s@%d+%d/p%d]", NsShort(r.NS), r.Start, r.Len, r.Pad)
	}
	return b.String()
}

// NsShort renders a namespace compactly.
func NsShort(ns libshare.Namespace) string {
	b := ns.Bytes()
	return fmt.Sprintf("%02x..%02x%02x", b[0], b[len(b)-2], b[len(b)-1])
}

// BlobNS returns the i-th namespace of the generator's pool of blob namespaces. Pool namespaces
// have even last bytes so that OddNS(i) lies strictly between BlobNS(i-1) and BlobNS(i).
func BlobNS(i int) libshare.Namespace {
	id := make([]byte, libshare.NamespaceVersionZeroIDSize)
	id[len(id)-2] = 0x10
	id[len(id)-1] = byte(2*i + 2)
	return libshare.MustNewV0Namespace(id)
}

// OddNS returns a namespace never used by the pool, ordered just below BlobNS(i).
func OddNS(i int) libshare.Namespace {
	id := make([]byte, libshare.NamespaceVersionZeroIDSize)
	id[len(id)-2] = 0x10
	id[len(id)-1] = byte(2*i + 1)
	return libshare.MustNewV0Namespace(id)
}

// LowNS is a valid blob namespace below every pool namespace; HighNS is above every one.
func LowNS() libshare.Namespace {
	id := make([]byte, libshare.NamespaceVersionZeroIDSize)
	id[len(id)-1] = 0x01
	id[len(id)-3] = 0x01
	return libshare.MustNewV0Namespace(id)
}

func HighNS() libshare.Namespace {
	id := bytes.Repeat([]byte{0xEE}, libshare.NamespaceVersionZeroIDSize)
	return libshare.MustNewV0Namespace(id)
}

const (
	blobPool     = 6
	reservedPool = 3 // Tx, PayForBlob, PrimaryReservedPadding
)

// nsPool is the ordered namespace pool: reserved first, then blob namespaces.
func nsPool() []libshare.Namespace {
	p := []libshare.Namespace{
		libshare.TxNamespace, libshare.PayForBlobNamespace, libshare.PrimaryReservedPaddingNamespace,
	}
	for i := 0; i < blobPool; i++ {
		p = append(p, BlobNS(i))
	}
	return p
}

// SquareOpts bounds the generator.
type SquareOpts struct {
	ODS        []int // allowed ODS widths
	AllowEmpty bool  // allow the canonical empty block
	MaxRuns    int   // 0 = default 8
}

// GenSquare draws a valid square layout from t and computes its extension and reference.
func GenSquare(t *rapid.T, label string, o SquareOpts) *Square {
	if o.AllowEmpty && rapid.IntRange(0, 19).Draw(t, label+".empty") == 0 {
		return EmptySquare()
	}
	ods := rapid.SampledFrom(o.ODS).Draw(t, label+".ods")
	area := ods * ods
	// tail padding amount: none / some / row aligned / all but one
	tail := 0
	switch rapid.IntRange(0, 5).Draw(t, label+".tailkind") {
	case 0, 1:
		tail = 0
	case 2:
		tail = rapid.IntRange(0, area-1).Draw(t, label+".tail")
	case 3:
		tail = rapid.IntRange(0, ods-1).Draw(t, label+".tailrows") * ods
	case 4:
		tail = area - 1
	case 5:
		tail = rapid.IntRange(0, min(area-1, ods)).Draw(t, label+".tailsmall")
	}
	data := area - tail
	maxRuns := o.MaxRuns
	if maxRuns == 0 {
		maxRuns = 8
	}
	nruns := rapid.IntRange(1, min(data, maxRuns)).Draw(t, label+".nruns")
	// cut points
	cutset := map[int]struct{}{}
	for i := 0; i < nruns-1; i++ {
		c := rapid.IntRange(1, data-1).Draw(t, label+".cut")
		if ods > 1 && rapid.IntRange(0, 2).Draw(t, label+".align") == 0 {
			c = (c / ods) * ods
			if c == 0 {
				c = min(ods, data-1)
			}
		}
		if c >= 1 && c <= data-1 {
			cutset[c] = struct{}{}
		}
	}
	cuts := make([]int, 0, len(cutset)+2)
	cuts = append(cuts, 0)
	for c := range cutset {
		cuts = append(cuts, c)
	}
	cuts = append(cuts, data)
	sort.Ints(cuts)
	nruns = len(cuts) - 1
	// namespaces: non-decreasing picks from the pool (equal neighbours allowed for blob namespaces)
	pool := nsPool()
	picks := make([]int, nruns)
	for i := range picks {
		picks[i] = rapid.IntRange(0, len(pool)-1).Draw(t, label+".ns")
	}
	sort.Ints(picks)
	seed := rapid.Uint64().Draw(t, label+".seed")
	runs := make([]Run, 0, nruns)
	for i := 0; i < nruns; i++ {
		ln := cuts[i+1] - cuts[i]
		ns := pool[picks[i]]
		// reserved namespaces may appear at most once each (one compact sequence)
		if i > 0 && picks[i] == picks[i-1] && picks[i] < reservedPool {
			// merge into the previous run
			runs[len(runs)-1].Len += ln
			if picks[i] == reservedPool-1 {
				runs[len(runs)-1].Pad = runs[len(runs)-1].Len
			}
			continue
		}
		pad := 0
		if picks[i] == reservedPool-1 {
			pad = ln // primary reserved padding: every share is a padding share
		} else if picks[i] >= reservedPool && ln > 1 && rapid.IntRange(0, 3).Draw(t, label+".padkind") == 0 {
			pad = rapid.IntRange(1, ln-1).Draw(t, label+".pad")
		}
		runs = append(runs, Run{NS: ns, Start: cuts[i], Len: ln, Pad: pad})
	}
	return BuildSquare(ods, tail, runs, seed)
}

// EmptySquare returns the canonical empty block.
func EmptySquare() *Square {
	eds := share.EmptyEDS()
	s := &Square{ODS: 1, Tail: 1, Empty: true, EDS: eds, Roots: share.EmptyEDSRoots()}
	s.Shares = []libshare.Share{libshare.TailPaddingShare()}
	s.fillRef()
	return s
}

// BuildSquare materialises a layout: payload bytes are a pure function of seed.
func BuildSquare(ods, tail int, runs []Run, seed uint64) *Square {
	area := ods * ods
	rng := rand.New(rand.NewPCG(seed, 0x9E3779B97F4A7C15))
	shares := make([]libshare.Share, 0, area)
	for _, r := range runs {
		for j := 0; j < r.Len; j++ {
			if j >= r.Len-r.Pad {
				shares = append(shares, paddingShareFor(r.NS))
				continue
			}
			shares = append(shares, dataShare(r.NS, j == 0, uint32((r.Len-r.Pad)*400), rng))
		}
	}
	for len(shares) < area {
		shares = append(shares, libshare.TailPaddingShare())
	}
	if len(shares) != area {
		panic(fmt.Sprintf("verifkit: layout has %d shares for area %d", len(shares), area))
	}
	eds, err := rsmt2d.ComputeExtendedDataSquare(
		libshare.ToBytes(shares), share.DefaultRSMT2DCodec(), wrapper.NewConstructor(uint64(ods)))
	if err != nil {
		panic(fmt.Sprintf("verifkit: generated layout rejected by rsmt2d: %v", err))
	}
	roots, err := share.NewAxisRoots(eds)
	if err != nil {
		panic(err)
	}
	s := &Square{ODS: ods, Tail: tail, Runs: runs, Shares: shares, EDS: eds, Roots: roots, Seed: seed}
	s.fillRef()
	return s
}

func (s *Square) fillRef() {
	// fill the DAH's lazily cached hash now, so that concurrent readers of s.Roots only read
	_ = s.Roots.Hash()
	w := int(s.EDS.Width())
	s.Ref = make([][][]byte, w)
	for r := 0; r < w; r++ {
		s.Ref[r] = make([][]byte, w)
		for c := 0; c < w; c++ {
			s.Ref[r][c] = append([]byte(nil), s.EDS.GetCell(uint(r), uint(c))...)
		}
	}
}

func paddingShareFor(ns libshare.Namespace) libshare.Share {
	if ns.IsReserved() {
		return libshare.ReservedPaddingShare()
	}
	sh, err := libshare.NamespacePaddingShare(ns, libshare.ShareVersionZero)
	if err != nil {
		panic(err)
	}
	return sh
}

func dataShare(ns libshare.Namespace, start bool, seqLen uint32, rng *rand.Rand) libshare.Share {
	buf := make([]byte, libshare.ShareSize)
	copy(buf, ns.Bytes())
	off := libshare.NamespaceSize
	ib, err := libshare.NewInfoByte(libshare.ShareVersionZero, start)
	if err != nil {
		panic(err)
	}
	buf[off] = byte(ib)
	off++
	if start {
		binary.BigEndian.PutUint32(buf[off:], seqLen)
		off += 4
	}
	if ns.IsTx() || ns.IsPayForBlob() {
		// compact shares carry 4 reserved bytes; keep them zero ("no unit starts here")
		off += 4
	}
	for i := off; i < len(buf); i++ {
		buf[i] = byte(rng.Uint32())
	}
	sh, err := libshare.NewShare(buf)
	if err != nil {
		panic(err)
	}
	return sh
}

// ---- reference queries (all answered from Ref / Shares, never from code under test) ----

// RefShare returns the committed bytes at an EDS coordinate.
func (s *Square) RefShare(row, col int) []byte { return s.Ref[row][col] }

// RefNamespace returns all ODS shares of ns in row-major order.
func (s *Square) RefNamespace(ns libshare.Namespace) [][]byte {
	var out [][]byte
	for r := 0; r < s.ODS; r++ {
		for c := 0; c < s.ODS; c++ {
			if bytes.Equal(s.Ref[r][c][:libshare.NamespaceSize], ns.Bytes()) {
				out = append(out, s.Ref[r][c])
			}
		}
	}
	return out
}

// RefRowsCovering returns the ODS... more precisely EDS row indices whose namespace range
// [min,max] (computed over the ODS half of the row, which is what an NMT with
// IgnoreMaxNamespace reports) covers ns. Rows >= ODS contain only parity shares and never cover
// a non-parity namespace.
func (s *Square) RefRowsCovering(ns libshare.Namespace) []int {
	var rows []int
	nb := ns.Bytes()
	for r := 0; r < s.ODS; r++ {
		lo := s.Ref[r][0][:libshare.NamespaceSize]
		hi := s.Ref[r][s.ODS-1][:libshare.NamespaceSize]
		if bytes.Compare(nb, lo) >= 0 && bytes.Compare(nb, hi) <= 0 {
			rows = append(rows, r)
		}
	}
	return rows
}

// NamespacesPresent returns the distinct ODS namespaces in order.
func (s *Square) NamespacesPresent() []libshare.Namespace {
	var out []libshare.Namespace
	for _, sh := range s.Shares {
		ns := sh.Namespace()
		if len(out) == 0 || !out[len(out)-1].Equals(ns) {
			out = append(out, ns)
		}
	}
	return out
}

// RunOf returns the index of the contiguous same-namespace stretch (not generator run: maximal
// stretch of equal namespace) containing ODS index idx as [from,to).
func (s *Square) NSStretch(idx int) (from, to int) {
	ns := s.Shares[idx].Namespace()
	from, to = idx, idx+1
	for from > 0 && s.Shares[from-1].Namespace().Equals(ns) {
		from--
	}
	for to < len(s.Shares) && s.Shares[to].Namespace().Equals(ns) {
		to++
	}
	return from, to
}

// ExtendedRowShares returns row r of the EDS as libshare shares (fresh slice).
func (s *Square) ExtendedRowShares(r int) []libshare.Share {
	out := make([]libshare.Share, s.Width())
	for c := range out {
		sh, err := libshare.NewShare(append([]byte(nil), s.Ref[r][c]...))
		if err != nil {
			panic(err)
		}
		out[c] = sh
	}
	return out
}

// ExtendedColShares returns column c of the EDS as libshare shares (fresh slice).
func (s *Square) ExtendedColShares(c int) []libshare.Share {
	out := make([]libshare.Share, s.Width())
	for r := range out {
		sh, err := libshare.NewShare(append([]byte(nil), s.Ref[r][c]...))
		if err != nil {
			panic(err)
		}
		out[r] = sh
	}
	return out
}

// GenSibling draws a second square with the same width that shares a (possibly empty) prefix of
// the layout with s but differs in payload (and possibly layout) afterwards.
func GenSibling(t *rapid.T, label string, s *Square) *Square {
	if s.Empty {
		return GenSquare(t, label, SquareOpts{ODS: []int{1}})
	}
	keep := rapid.IntRange(0, len(s.Runs)).Draw(t, label+".keep")
	seed := rapid.Uint64().Draw(t, label+".seed")
	if seed == s.Seed {
		seed++
	}
	// same layout, different payload from run `keep` on: rebuild with the original seed for the
	// prefix and a new seed for the rest
	a := BuildSquare(s.ODS, s.Tail, s.Runs, s.Seed)
	b := BuildSquare(s.ODS, s.Tail, s.Runs, seed)
	cut := len(s.Shares) - s.Tail
	if keep < len(s.Runs) {
		cut = s.Runs[keep].Start
	} else {
		// identical layout and payload would be the same square: differ in the last data share
		cut = max(0, len(s.Shares)-s.Tail-1)
	}
	shares := append(append([]libshare.Share(nil), a.Shares[:cut]...), b.Shares[cut:]...)
	eds, err := rsmt2d.ComputeExtendedDataSquare(
		libshare.ToBytes(shares), share.DefaultRSMT2DCodec(), wrapper.NewConstructor(uint64(s.ODS)))
	if err != nil {
		panic(err)
	}
	roots, err := share.NewAxisRoots(eds)
	if err != nil {
		panic(err)
	}
	out := &Square{ODS: s.ODS, Tail: s.Tail, Runs: s.Runs, Shares: shares, EDS: eds, Roots: roots, Seed: seed}
	out.fillRef()
	return out
}

// SharesBytesEqual compares shares with reference bytes element-wise.
func SharesBytesEqual(got []libshare.Share, want [][]byte) error {
	if len(got) != len(want) {
		return fmt.Errorf("length %d, want %d", len(got), len(want))
	}
	for i := range got {
		if !bytes.Equal(got[i].ToBytes(), want[i]) {
			return fmt.Errorf("share %d differs from the committed share", i)
		}
	}
	return nil
}
